//! C13: what the server configuration opens for storage (AppConfig::validate / assigned_buckets /
//! assigned_partitions, exactly the calls main.rs:34-44 makes) against what the node's real
//! TopologyManager claims (assigned_partitions) and routes to it (partition_replicas once every
//! node of the cluster is known).
//!
//! case     `c13 <N> <idx> <B> <P> <rf>`
//! observed `INVALID` when validate() reports any error, otherwise
//!          `cb=[..] cp=[..] tp=[..] rt=[..]` (sorted): config buckets, config partitions, topology
//!          assigned partitions, partitions whose replica list contains this node (`rt=skip` when
//!          N > 320: no routing table is built for such clusters here).
use std::collections::BTreeSet;
use std::path::PathBuf;

use common::{Args, Out, Rng, catch, list};
use sierradb_server::config::{
    AppConfig, AppendConfig, BucketConfig, CacheConfig, HeartbeatConfig, NetworkConfig, NodeConfig, PartitionConfig,
    ReplicationConfig, SegmentConfig, SyncConfig, Threads,
};

use crate::topo::{self, Peers};

pub const RT_MAX_N: u32 = 320;
type Case = (u32, u32, u16, u16, u8);

fn app_config(n: u32, idx: u32, b: u16, p: u16, rf: u8) -> AppConfig {
    AppConfig {
        append: AppendConfig { strict_versioning: true },
        bucket: BucketConfig { count: b, ids: None },
        cache: CacheConfig { capacity_bytes: 256 * 1024 * 1024 },
        dir: PathBuf::from("/nonexistent-c13"),
        heartbeat: HeartbeatConfig { interval_ms: 1000, timeout_ms: 6000 },
        network: NetworkConfig {
            cluster_enabled: true,
            cluster_address: "/ip4/0.0.0.0/tcp/0".parse().unwrap(),
            client_address: "0.0.0.0:9090".to_string(),
            mdns: false,
        },
        node: NodeConfig { count: Some(n), index: idx },
        partition: PartitionConfig { count: p, ids: None },
        replication: ReplicationConfig { buffer_size: 1000, buffer_timeout_ms: 8000, catchup_timeout_ms: 2000, factor: rf },
        segment: SegmentConfig { size_bytes: 256 * 1024 * 1024, compression: true },
        sync: SyncConfig { interval_ms: 5, idle_interval_ms: None, max_batch_size: 50, min_bytes: 4096 },
        threads: Threads::default(),
        nodes: None,
    }
}

pub fn observe(peers: &Peers, rng: &mut Rng, (n, idx, b, p, rf): Case) -> String {
    let cfg = app_config(n, idx, b, p, rf);
    match catch(|| cfg.validate()) {
        None => return "PANIC-validate".into(),
        Some(Err(_)) => return "INVALID-ERR".into(),
        Some(Ok(errs)) if !errs.is_empty() => return "INVALID".into(),
        Some(Ok(_)) => {}
    }
    // --- main.rs:43-44 and :65
    let conf = catch(|| {
        let cb = cfg.assigned_buckets().ok()?;
        let cp = cfg.assigned_partitions(&cb);
        let node_count = cfg.node_count().ok()?;
        Some((cb, cp, node_count))
    });
    let (cb, cp, node_count) = match conf {
        None => return "PANIC-config".into(),
        Some(None) => return "CONFIG-ERR".into(),
        Some(Some(x)) => x,
    };
    // --- the ClusterActor builds its TopologyManager from the same numbers (cluster lib.rs:176-184)
    let (nn, ii) = (node_count, cfg.node.index as usize);
    let mut order: Vec<usize> = (0..nn.min(RT_MAX_N as usize + 1)).filter(|&j| j != ii).collect();
    for k in (1..order.len()).rev() { let r = rng.below(k as u64 + 1) as usize; order.swap(k, r); }
    let topo = catch(|| {
        if n <= RT_MAX_N {
            let m = topo::full_manager(peers, ii, nn, cfg.partition.count, cfg.bucket.count, cfg.replication.factor, &order, nn > 16);
            let me = peers.refs[ii];
            let rt: Vec<u16> = (0..cfg.partition.count)
                .filter(|q| m.partition_replicas.get(q).map(|r| r.contains(&me)).unwrap_or(false))
                .collect();
            (topo::sorted(m.assigned_partitions.iter().copied()), Some(rt))
        } else {
            // peer 0 stands in for this node's ref; nothing else is connected
            let m = topo::new_manager(peers, 0, ii, 1000, nn, cfg.partition.count, cfg.bucket.count, cfg.replication.factor);
            (topo::sorted(m.assigned_partitions.iter().copied()), None)
        }
    });
    let Some((tp, rt)) = topo else { return "PANIC-topology".into() };
    format!(
        "cb={} cp={} tp={} rt={}",
        list(topo::sorted(cb.iter().copied())),
        list(topo::sorted(cp.iter().copied())),
        list(tp),
        rt.map(list).unwrap_or_else(|| "skip".into())
    )
}

fn push(cs: &mut Vec<Case>, seen: &mut BTreeSet<Case>, c: Case) {
    if seen.insert(c) { cs.push(c); }
}

fn log_uniform(rng: &mut Rng, hi: u64) -> u64 {
    // 1..=hi, roughly uniform in the exponent
    let bits = 64 - hi.leading_zeros() as u64;
    let k = rng.range(1, bits);
    let v = rng.range(1u64 << (k - 1), (1u64 << k) - 1);
    v.min(hi).max(1)
}

pub fn generate(tier: &str, rng: &mut Rng) -> Vec<Case> {
    let thorough = tier == "thorough";
    let mut cs = Vec::new();
    let mut seen = BTreeSet::new();
    // 1. every accepted configuration of the small box N<=8, B<=16, P<=32, rf<=N
    for n in 1..=8u32 {
        for idx in 0..n {
            for rf in 1..=n as u8 {
                for b in 1..=16u16 {
                    let lo = (n as u16).max(b);
                    if thorough {
                        for p in lo..=32u16 { push(&mut cs, &mut seen, (n, idx, b, p, rf)); }
                    } else {
                        // quick: the partition counts at the edges (P only extends the filtered range 0..P)
                        for p in [lo, lo + 1, 2 * lo + 1, 31, 32] { if p >= lo && p <= 32 { push(&mut cs, &mut seen, (n, idx, b, p, rf)); } }
                    }
                }
            }
        }
    }
    // 2. around the edges of validation (mostly rejected)
    for n in 0..=8u32 {
        for &b in &[0u16, 1, 2, 5] {
            for &idx in &[0u32, n.saturating_sub(1), n, n + 1] {
                for &rf in &[0u8, 1, n as u8, n as u8 + 1] {
                    for &p in &[0u16, 1, (n as u16).saturating_sub(1), n as u16, b.saturating_sub(1), b, b + 1] {
                        push(&mut cs, &mut seen, (n, idx, b, p, rf));
                    }
                }
            }
        }
    }
    // 3. boundary cluster sizes
    let big_ns: &[u32] = &[9, 12, 13, 14, 16, 17, 64, 100, 254, 255, 256, 257, 258, 300, 320, 321, 511, 512, 513, 1000, 4096, 65535];
    let big_ns: &[u32] = if thorough { big_ns } else { &big_ns[..big_ns.len() - 2] };
    let per_n = if thorough { 260 } else { 36 };
    for &n in big_ns {
        // cost of a case is about P (the real recalculation walks every partition): bounded per cluster size
        let mut budget: i64 = if thorough { 80_000 } else { 12_000 };
        for _ in 0..per_n {
            let r0 = rng.below(n as u64) as u32;
            let idx = *rng.pick(&[0, 1, n / 2, n - 2, n - 1, r0]);
            let r1 = rng.range(1, 12) as u8;
            let rf = *rng.pick(&[1u8, 2, 3, 5, 11, 12, 13, 255, (n.min(255)) as u8, r1]);
            let r2 = log_uniform(rng, 65535);
            let bs = [1u64, 2, 3, n as u64 - 1, n as u64, n as u64 + 1, 2 * n as u64 - 1, 2 * n as u64, 2 * n as u64 + 1, 1000, 4096, 65535, r2];
            let b = (*rng.pick(&bs)).clamp(1, 65535) as u16;
            let lo = (n as u64).max(b as u64);
            let r3 = rng.below(64);
            let mut p = *rng.pick(&[lo, lo + 1, 2 * lo + 3, 65535, lo + r3]);
            if rng.chance(1, 25) { p = lo.saturating_sub(1 + rng.below(3)); }
            let p = p.min(65535);
            if p > 2000 && rf <= 12 { if (p as i64) > budget { continue; } budget -= p as i64; }
            push(&mut cs, &mut seen, (n, idx, b, p as u16, rf));
        }
    }
    // the largest counts, once each
    for c in [(256u32, 3u32, 65535u16, 65535u16, 3u8), (300, 299, 4, 65535, 12), (65535, 65534, 65535, 65535, 2), (4096, 17, 4097, 8200, 5)] {
        if thorough || c.0 <= 300 { push(&mut cs, &mut seen, c); }
    }
    // 4. random configurations
    let nrand = if thorough { 4000 } else { 500 };
    let mut budget: i64 = if thorough { 500_000 } else { 80_000 };
    for _ in 0..nrand {
        let n = if rng.chance(1, 12) { log_uniform(rng, 65535) } else { log_uniform(rng, 300) } as u32;
        let idx = if rng.chance(1, 30) { n } else { rng.below(n as u64) as u32 };
        let b = if rng.chance(1, 3) { log_uniform(rng, 65535) } else { log_uniform(rng, 64) };
        let lo = (n as u64).max(b);
        let mut p = if rng.chance(1, 2) { lo + rng.below(40) } else { lo + log_uniform(rng, 65535) };
        if p > 3000 && !rng.chance(1, 10) { p = lo + rng.below(200); }
        if rng.chance(1, 20) { p = lo.saturating_sub(1 + rng.below(4)); }
        let rf = if rng.chance(1, 10) { rng.below(256) as u8 } else { rng.range(1, (n as u64).min(12)) as u8 };
        let p = p.min(65535);
        if p > 2000 && rf <= 12 { if (p as i64) > budget { continue; } budget -= p as i64; }
        push(&mut cs, &mut seen, (n, idx, b as u16, p as u16, rf));
    }
    cs
}

fn parse(line: &str) -> Option<Case> {
    let t: Vec<&str> = line.split_whitespace().collect();
    if t.len() != 6 || t[0] != "c13" { return None; }
    Some((t[1].parse().ok()?, t[2].parse().ok()?, t[3].parse().ok()?, t[4].parse().ok()?, t[5].parse().ok()?))
}

pub fn run(a: &Args, out: &mut Out) {
    let mut rng = Rng::new(a.seed);
    let cases: Vec<Case> = if a.tier == "cases" {
        std::fs::read_to_string(&a.rest[0]).unwrap().lines().filter_map(parse).collect()
    } else {
        generate(&a.tier, &mut rng)
    };
    let need = cases.iter().map(|c| c.0).filter(|&n| n <= RT_MAX_N).max().unwrap_or(1).max(1);
    let peers = Peers::new(need as usize);
    for c in cases {
        let o = observe(&peers, &mut rng, c);
        out.case(&format!("c13 {} {} {} {} {}", c.0, c.1, c.2, c.3, c.4), &o);
    }
}
