mod c13;
mod topo;
fn main() {
    common::silence_panics();
    let a = common::args();
    let mut out = common::Out::new();
    c13::run(&a, &mut out);
    out.flush();
}
