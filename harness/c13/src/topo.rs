//! Shared by the c13 and c14 harness crates (c14 includes this file by path): peers, real
//! `TopologyManager<ActorId>` instances built the way the repo's own test helpers build them.
#![allow(dead_code)]
use std::collections::{HashMap, HashSet};
use std::time::{Duration, Instant};

use arrayvec::ArrayVec;
use kameo::actor::ActorId;
use libp2p::PeerId;
use sierradb_topology::TopologyManager;
use sierradb_topology::test_helpers::create_test_peer_id;

pub type Mgr = TopologyManager<ActorId>;
pub const CAP: usize = 12; // sierradb::MAX_REPLICATION_FACTOR (the ArrayVec capacity in the manager's types)

/// `k` peers named by the rank of their cluster ref in `ActorId`'s own `Ord`:
/// peer `j` is the `j`-th smallest ref, so "ref order" in the model is numeric order of peer names.
pub struct Peers {
    pub refs: Vec<ActorId>,
    pub by_peer: HashMap<PeerId, usize>,
}
impl Peers {
    pub fn new(k: usize) -> Self {
        let mut refs: Vec<ActorId> = (0..k).map(|i| ActorId::new_with_peer_id(0, create_test_peer_id(i))).collect();
        refs.sort();
        let by_peer = refs.iter().enumerate().map(|(j, r)| (*r.peer_id().unwrap(), j)).collect();
        Peers { refs, by_peer }
    }
    pub fn peer(&self, j: usize) -> PeerId { *self.refs[j].peer_id().unwrap() }
    pub fn name(&self, r: &ActorId) -> usize { self.by_peer[r.peer_id().unwrap()] }
    pub fn name_of_peer(&self, p: &PeerId) -> usize { self.by_peer[p] }
}

/// A manager for peer `j` with configured index `idx`; its clock reading is replaced by `alive`.
pub fn new_manager(peers: &Peers, j: usize, idx: usize, alive: u64, n: usize, p: u16, b: u16, rf: u8) -> Mgr {
    let mut m = TopologyManager::new(peers.refs[j], idx, n, p, b, rf, Duration::from_secs(30));
    m.alive_since = alive;
    m.active_nodes.insert(peers.peer(j), (alive, idx));
    m
}

/// Node `idx` of an `n`-node cluster in which peer `i` has index `i` and alive_since `1000 + i`,
/// after it has learnt about every other node. `order` lists the other nodes in the order they are
/// learnt. With `via_fields` all but the last are put into the (public) membership maps directly and
/// only the last goes through `on_node_connected` (one real recalculation instead of n-1).
pub fn full_manager(peers: &Peers, idx: usize, n: usize, p: u16, b: u16, rf: u8, order: &[usize], via_fields: bool) -> Mgr {
    let mut m = new_manager(peers, idx, idx, 1000 + idx as u64, n, p, b, rf);
    let empty = HashSet::new();
    for (pos, &j) in order.iter().enumerate() {
        if via_fields && pos + 1 != order.len() {
            let pid = peers.peer(j);
            m.active_nodes.insert(pid, (1000 + j as u64, j));
            m.cluster_nodes.insert(pid, peers.refs[j]);
            m.node_heartbeats.insert(pid, Instant::now());
        } else {
            m.on_node_connected(peers.refs[j], &empty, 1000 + j as u64, j, n);
        }
    }
    m
}

pub fn replicas_named(peers: &Peers, m: &Mgr, q: u16) -> Vec<usize> {
    m.partition_replicas.get(&q).map(|r| r.iter().map(|x| peers.name(x)).collect()).unwrap_or_default()
}
pub fn available_named(peers: &Peers, m: &Mgr, q: u16) -> Vec<usize> {
    m.get_available_replicas(q).iter().map(|(x, _)| peers.name(x)).collect()
}

/// What `behaviour.rs` puts on the wire after `on_node_connected` and how the receiver turns it back
/// (behaviour.rs:268-281): ref -> set of partitions, then partition -> refs. Partitions without replicas
/// disappear and the order inside a replica list is whatever the maps' iteration gives.
pub type Resp = (HashMap<u16, ArrayVec<ActorId, CAP>>, HashMap<PeerId, (u64, usize)>);
pub fn response_roundtrip(m: &Mgr) -> Resp {
    let mut wire: HashMap<ActorId, HashSet<u16>> = HashMap::new();
    for (q, refs) in &m.partition_replicas {
        for r in refs { wire.entry(*r).or_default().insert(*q); }
    }
    let mut back: HashMap<u16, ArrayVec<ActorId, CAP>> = HashMap::new();
    for (r, qs) in wire {
        for q in qs { back.entry(q).or_default().push(r); }
    }
    (back, m.active_nodes.clone())
}

/// Make peer `j` time out at `m` (and nobody else): its last heartbeat is moved into the past, all
/// others are refreshed, then the real `check_heartbeat_timeouts` runs.
pub fn timeout_peer(peers: &Peers, m: &mut Mgr, j: usize) -> bool {
    let now = Instant::now();
    let old = now.checked_sub(Duration::from_secs(120)).or_else(|| now.checked_sub(Duration::from_secs(40)));
    let Some(old) = old else { return false };
    let keys: Vec<PeerId> = m.node_heartbeats.keys().copied().collect();
    for k in keys { m.node_heartbeats.insert(k, now); }
    let pid = peers.peer(j);
    if m.node_heartbeats.contains_key(&pid) { m.node_heartbeats.insert(pid, old); }
    m.check_heartbeat_timeouts()
}

pub fn sorted<T: Ord + Copy>(it: impl IntoIterator<Item = T>) -> Vec<T> {
    let mut v: Vec<T> = it.into_iter().collect();
    v.sort();
    v
}
