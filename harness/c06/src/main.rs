//! C06 harness: runs a real history (cstore's generator and executor) that causes rollovers, shuts the
//! database down cleanly, and then, for every sealed segment and each of its three index files, puts the file
//! into the states a crash during the background index flush can leave (deleted, empty, every structural /
//! 1 KiB-ish proper prefix, complete), reopens the REAL database and looks every event of that segment up by
//! id, by stream scan and by partition scan.
//!
//! Case line (the model driver reads everything before " | "):
//!   `c06 sg=<bucket>/<segment> file=<e|p|s> st=<missing|empty|p<len>|complete> lay=<records offset>:<records end>:<file len>
//!        recs=<record>,<record>,.. | <history line>`
//!   record = `E<eid>.<pid>.<seq>.<sid>.<ver>.<tx>.<flag>` | `C<tx>.<count>`  (the sealed segment's data.evts, read with
//!   the real BucketSegmentReader; tx = first-occurrence index of the transaction id)
//!   `file=d st=emptydir`: instead of an index file state, an empty directory for the next segment exists (the process
//!   died inside the rollover right after creating it)
//! Observed: `open=ok id=<found>/<n> st=<found>/<n> pt=<found>/<n> oth=<ok|miss<k>>` (+ ` !<first failures>`) | `open=err:<message>`
#[path = "../../cstore/src/hist.rs"]
mod hist;
#[path = "../../cstore/src/exec.rs"]
mod exec;

use std::collections::{BTreeMap, BTreeSet, HashMap};
use std::path::{Path, PathBuf};
use std::time::Duration;

use common::Rng;
use sierradb::bucket::segment::{BucketSegmentReader, Record};
use sierradb::database::{Database, DatabaseBuilder};
use sierradb::id::get_uuid_flag;
use sierradb::{IterDirection, StreamId};
use uuid::Uuid;

use hist::{Ev, Hist, Op, Xv};

#[derive(Clone, Debug)]
struct SegEv { eid: u64, uuid: Uuid, pid: u16, seq: u64, sid: u64, ver: u64 }
#[derive(Clone, Debug)]
struct Sealed { bucket: u16, seg: u32, dir: PathBuf, recs: String, evs: Vec<SegEv> }

fn eid_of(u: &Uuid) -> u64 { (u.as_u128() & 0xFF_FFFF_FFFF) as u64 }

fn read_segment(dir: &Path, bucket: u16, seg: u32, txs: &mut HashMap<Uuid, usize>) -> Result<Sealed, String> {
    let mut r = BucketSegmentReader::open(dir.join("data.evts"), None).map_err(|e| e.to_string())?;
    let mut it = r.iter();
    let mut recs = Vec::new();
    let mut evs = Vec::new();
    // events of the currently open (uncommitted) multi-event transaction
    let mut open: Vec<SegEv> = Vec::new();
    loop {
        match it.next_record() {
            Ok(Some(Record::Event(e))) => {
                let n = txs.len();
                let tx = *txs.entry(e.transaction_id).or_insert(n);
                let sid: u64 = e.stream_id.to_string().trim_start_matches("stream-").parse().map_err(|_| "stream name")?;
                let flag = get_uuid_flag(&e.transaction_id);
                recs.push(format!("E{}.{}.{}.{}.{}.{}.{}", eid_of(&e.event_id), e.partition_id, e.partition_sequence, sid, e.stream_version, tx, flag as u8));
                let se = SegEv { eid: eid_of(&e.event_id), uuid: e.event_id, pid: e.partition_id, seq: e.partition_sequence, sid, ver: e.stream_version };
                if flag { evs.push(se); } else { open.push(se); }
            }
            Ok(Some(Record::Commit(c))) => {
                let n = txs.len();
                let tx = *txs.entry(c.transaction_id).or_insert(n);
                recs.push(format!("C{}.{}", tx, c.event_count));
                evs.append(&mut open);
            }
            Ok(None) => break,
            Err(e) => { if recs.is_empty() { return Err(e.to_string()); } break; }
        }
    }
    Ok(Sealed { bucket, seg, dir: dir.to_path_buf(), recs: recs.join(","), evs })
}

fn sealed_segments(db_dir: &Path) -> Vec<Sealed> {
    let mut out = Vec::new();
    let mut txs = HashMap::new();
    let Ok(buckets) = std::fs::read_dir(db_dir.join("buckets")) else { return out; };
    let mut bs: Vec<(u16, PathBuf)> = buckets.flatten().filter_map(|b| b.file_name().to_string_lossy().parse().ok().map(|i| (i, b.path()))).collect();
    bs.sort();
    for (bucket, bp) in bs {
        let mut ids: Vec<(u32, PathBuf)> = std::fs::read_dir(bp.join("segments")).map(|r| r.flatten()
            .filter(|e| e.path().join("data.evts").exists())
            .filter_map(|e| e.file_name().to_string_lossy().parse::<u32>().ok().map(|i| (i, e.path()))).collect()).unwrap_or_default();
        ids.sort();
        ids.pop(); // the live segment
        for (seg, p) in ids {
            if let Ok(s) = read_segment(&p, bucket, seg, &mut txs) { out.push(s); }
        }
    }
    out
}

fn file_name(kind: char) -> &'static str { match kind { 'e' => "index.eidx", 'p' => "partition.pidx", _ => "stream.sidx" } }

/// (records offset, records end, file length) of a complete index file
fn layout(kind: char, bytes: &[u8]) -> (u64, u64, u64) {
    let total = bytes.len() as u64;
    if bytes.len() < 20 { return (total, total, total); }
    let n = u64::from_le_bytes(bytes[4..12].try_into().unwrap());
    let l = u64::from_le_bytes(bytes[12..20].try_into().unwrap());
    let (hdr, rsize) = match kind {
        'e' => (20 + l, 24),
        'p' => (20 + l, 38),
        _ => {
            let o = (20 + l) as usize;
            let b = if bytes.len() >= o + 8 { u64::from_le_bytes(bytes[o..o + 8].try_into().unwrap()) } else { 0 };
            (20 + l + 8 + b, 108)
        }
    };
    (hdr.min(total), (hdr + n * rsize).min(total), total)
}

fn open_db(h: &Hist, dir: &Path) -> Result<Database, String> {
    let mut b = DatabaseBuilder::new();
    b.segment_size_bytes(h.seg).total_buckets(h.buckets).bucket_ids_from_range(0..h.buckets).reader_threads(2).writer_threads(h.buckets)
        .sync_interval(Duration::from_millis(2)).sync_idle_interval(Duration::from_millis(4)).cache_capacity_bytes(4 * 1024 * 1024).compression(h.comp);
    match common::catch(|| b.open(dir)) {
        Some(Ok(db)) => Ok(db),
        Some(Err(e)) => Err(short(&e.to_string())),
        None => Err("PANIC".into()),
    }
}
fn short(s: &str) -> String { s.chars().map(|c| if c.is_whitespace() || c == '|' { '_' } else { c }).take(70).collect() }

#[derive(Default)]
struct Tally { found: usize, fails: Vec<String> }

async fn lookups(db: &Database, evs: &[SegEv]) -> (Tally, Tally, Tally) {
    let (mut by_id, mut by_st, mut by_pt) = (Tally::default(), Tally::default(), Tally::default());
    let t = Duration::from_secs(20);
    for e in evs {
        match tokio::time::timeout(t, db.read_event(e.pid, e.uuid)).await {
            Ok(Ok(Some(r))) if r.event_id == e.uuid && r.partition_sequence == e.seq && r.stream_version == e.ver => by_id.found += 1,
            Ok(Ok(Some(_))) => by_id.fails.push(format!("id:e{}:wrong", e.eid)),
            Ok(Ok(None)) => by_id.fails.push(format!("id:e{}:none", e.eid)),
            Ok(Err(x)) => by_id.fails.push(format!("id:e{}:err:{}", e.eid, short(&x.to_string()))),
            Err(_) => by_id.fails.push(format!("id:e{}:TIMEOUT", e.eid)),
        }
    }
    // stream scans
    let streams: BTreeSet<(u64, u16)> = evs.iter().map(|e| (e.sid, e.pid)).collect();
    let mut seen: HashMap<Uuid, (u64, u64)> = HashMap::new();
    let mut errs: BTreeMap<(u64, u16), String> = BTreeMap::new();
    for (sid, pid) in &streams {
        let r = tokio::time::timeout(t, async {
            let mut it = db.read_stream(*pid, StreamId::new(format!("stream-{sid}")).unwrap(), 0, IterDirection::Forward).await.map_err(|e| e.to_string())?;
            let mut got = Vec::new();
            loop {
                match it.next_batch(50).await { Ok(Some(b)) => for c in b { for e in c.into_iter() { got.push((e.event_id, e.partition_sequence, e.stream_version)); } },
                    Ok(None) => return Ok::<_, String>((got, None)), Err(e) => return Ok((got, Some(e.to_string()))) }
            }
        }).await;
        match r {
            Ok(Ok((got, err))) => { for (u, q, v) in got { seen.insert(u, (q, v)); } if let Some(e) = err { errs.insert((*sid, *pid), short(&e)); } }
            Ok(Err(e)) => { errs.insert((*sid, *pid), short(&e)); }
            Err(_) => { errs.insert((*sid, *pid), "TIMEOUT".into()); }
        }
    }
    for e in evs {
        match seen.get(&e.uuid) {
            Some((q, v)) if *q == e.seq && *v == e.ver => by_st.found += 1,
            Some(_) => by_st.fails.push(format!("st:e{}:wrong", e.eid)),
            None => by_st.fails.push(format!("st:e{}:{}", e.eid, errs.get(&(e.sid, e.pid)).map(|x| format!("err:{x}")).unwrap_or("none".into()))),
        }
    }
    // partition scans
    let parts: BTreeSet<u16> = evs.iter().map(|e| e.pid).collect();
    let mut seen: HashMap<Uuid, (u64, u64)> = HashMap::new();
    let mut errs: BTreeMap<u16, String> = BTreeMap::new();
    for pid in &parts {
        let r = tokio::time::timeout(t, async {
            let mut it = db.read_partition(*pid, 0, IterDirection::Forward).await.map_err(|e| e.to_string())?;
            let mut got = Vec::new();
            loop {
                match it.next_batch(50).await { Ok(Some(b)) => for c in b { for e in c.into_iter() { got.push((e.event_id, e.partition_sequence, e.stream_version)); } },
                    Ok(None) => return Ok::<_, String>((got, None)), Err(e) => return Ok((got, Some(e.to_string()))) }
            }
        }).await;
        match r {
            Ok(Ok((got, err))) => { for (u, q, v) in got { seen.insert(u, (q, v)); } if let Some(e) = err { errs.insert(*pid, short(&e)); } }
            Ok(Err(e)) => { errs.insert(*pid, short(&e)); }
            Err(_) => { errs.insert(*pid, "TIMEOUT".into()); }
        }
    }
    for e in evs {
        match seen.get(&e.uuid) {
            Some((q, v)) if *q == e.seq && *v == e.ver => by_pt.found += 1,
            Some(_) => by_pt.fails.push(format!("pt:e{}:wrong", e.eid)),
            None => by_pt.fails.push(format!("pt:e{}:{}", e.eid, errs.get(&e.pid).map(|x| format!("err:{x}")).unwrap_or("none".into()))),
        }
    }
    (by_id, by_st, by_pt)
}

async fn observe(h: &Hist, db_dir: &Path, sg: &Sealed, others: &[SegEv]) -> String {
    let t0 = std::time::Instant::now();
    let db = match open_db(h, db_dir) { Ok(db) => db, Err(e) => return format!("open=err:{e}") };
    let t1 = t0.elapsed();
    let n = sg.evs.len();
    let (a, b, c) = lookups(&db, &sg.evs).await;
    let t2 = t0.elapsed();
    // the other segments must be unaffected: every other event by id
    let mut miss = 0;
    for e in others {
        match tokio::time::timeout(Duration::from_secs(20), db.read_event(e.pid, e.uuid)).await { Ok(Ok(Some(r))) if r.event_id == e.uuid => {}, _ => miss += 1 }
    }
    let t3 = t0.elapsed();
    db.shutdown().await;
    drop(db);
    if std::env::var("SV_TIMING").is_ok() { eprintln!("open {:?} lookups {:?} others {:?} shutdown {:?}", t1, t2 - t1, t3 - t2, t0.elapsed() - t3); }
    let mut s = format!("open=ok id={}/{} st={}/{} pt={}/{} oth={}", a.found, n, b.found, n, c.found, n, if miss == 0 { "ok".to_string() } else { format!("miss{miss}") });
    let fails: Vec<String> = a.fails.iter().chain(b.fails.iter()).chain(c.fails.iter()).take(3).cloned().collect();
    if !fails.is_empty() { s.push_str(" !"); s.push_str(&fails.join(";")); }
    s
}

#[derive(Clone, Debug, PartialEq)]
enum St { Missing, Empty, Prefix(u64), Complete }
impl St {
    fn show(&self) -> String { match self { St::Missing => "missing".into(), St::Empty => "empty".into(), St::Prefix(p) => format!("p{p}"), St::Complete => "complete".into() } }
    fn parse(s: &str) -> Option<St> { Some(match s { "missing" => St::Missing, "empty" => St::Empty, "complete" => St::Complete, _ => St::Prefix(s.strip_prefix('p')?.parse().ok()?) }) }
}

/// prefix lengths worth trying for a file with this layout
fn cuts(lay: (u64, u64, u64), rsize: u64, rng: &mut Rng, thorough: bool) -> Vec<u64> {
    let (hdr, recs, total) = lay;
    let mut v: Vec<u64> = vec![1, 3, 4, 11, 12, 19, 20, 21, hdr / 2, hdr.saturating_sub(1), hdr, hdr + 1, hdr + rsize - 1, hdr + rsize, hdr + rsize + 1,
        recs.saturating_sub(rsize), recs.saturating_sub(1), recs, recs + 1, recs + 8, (recs + total) / 2, total.saturating_sub(8), total.saturating_sub(1)];
    let mut k = 1024; while k < total { v.push(k); k += 1024; }
    let extra = if thorough { 12 } else { 3 };
    for _ in 0..extra { v.push(rng.below(total.max(1))); }
    v.retain(|p| *p > 0 && *p < total);
    v.sort(); v.dedup();
    v
}

/// a history that seals segments: mostly large events (a 128 KiB segment rolls over after a few of them), some
/// medium and small ones, multi-event transactions, several streams / partition keys / partitions / buckets,
/// now and then a clean reopen or a crash that tears the live segment's last transaction
fn gen_history(rng: &mut Rng, thorough: bool) -> Hist {
    let buckets = *rng.pick(&[1u16, 1, 2]);
    let nk = rng.range(2, 4) as usize;
    let base = rng.below(50) as u16;
    let keys: Vec<u16> = (0..nk).map(|i| match i { 0 | 1 => base, _ => base + i as u16 }).collect();
    let mut ops = Vec::new();
    let nappend = if thorough { rng.range(10, 36) } else { rng.range(7, 16) } as usize;
    let mut eid = 0u64;
    for _ in 0..nappend {
        let k = rng.below(nk as u64) as usize;
        let nev = *rng.pick(&[1usize, 1, 1, 2, 2, 3, 4]);
        let streams: Vec<u64> = (0..8).filter(|s| (*s as usize) % nk == k).collect();
        let mut evs = Vec::new();
        for _ in 0..nev {
            let len = match rng.below(10) { 0..=4 => rng.range(15_000, 45_000), 5..=7 => rng.range(1_500, 6_000), _ => *rng.pick(&[0u64, 10, 127, 128, 300]) } as usize;
            evs.push(Ev { eid, sid: *rng.pick(&streams), xv: Xv::Any, len, rnd: rng.chance(1, 2), ts_ok: true });
            eid += 1;
        }
        ops.push(Op::Append { k, xseq: Xv::Any, evs, roll: false, big: false });
        match rng.below(16) { 0 => ops.push(Op::Reopen), 1 => ops.push(Op::Crash { keep: rng.below(nev as u64 + 2) as usize, extra: *rng.pick(&[0usize, 3, 9, 100]) }), _ => {} }
    }
    Hist { buckets, seg: 131072, comp: rng.chance(1, 2), keys, ops }
}

struct HistRun { h: Hist, line: String, root: PathBuf, db_dir: PathBuf, sealed: Vec<Sealed> }

fn run_history(rt: &tokio::runtime::Runtime, h: Hist) -> HistRun {
    let mut w = exec::World::new(h);
    let _obs = rt.block_on(w.run());
    let root = w.keep();
    let db_dir = root.join("db0");
    let sealed = sealed_segments(&db_dir);
    HistRun { line: w.h.show(), h: w.h.clone(), root, db_dir, sealed }
}

fn run_mutation(rt: &tokio::runtime::Runtime, hr: &HistRun, si: usize, kind: char, st: &St, out: &mut common::Out) {
    let sg = &hr.sealed[si];
    if kind == 'd' {
        // the process died inside the rollover, right after the next segment's directory was created (no file in it yet)
        let segs = sg.dir.parent().unwrap();
        let max: u32 = std::fs::read_dir(segs).map(|r| r.flatten().filter_map(|e| e.file_name().to_string_lossy().parse::<u32>().ok()).max().unwrap_or(0)).unwrap_or(0);
        let d = segs.join(format!("{:010}", max + 1));
        std::fs::create_dir(&d).unwrap();
        let others: Vec<SegEv> = hr.sealed.iter().enumerate().filter(|(i, _)| *i != si).flat_map(|(_, s)| s.evs.iter().cloned()).collect();
        let obs = rt.block_on(observe(&hr.h, &hr.db_dir, sg, &others));
        let _ = std::fs::remove_dir_all(&d);
        let case = format!("c06 sg={}/{} file=d st=emptydir lay=0:0:0 recs={} | {}", sg.bucket, sg.seg, sg.recs, hr.line);
        out.case(&case, &obs);
        out.flush();
        return;
    }
    let path = sg.dir.join(file_name(kind));
    let orig = match std::fs::read(&path) { Ok(b) => b, Err(_) => return };
    let lay = layout(kind, &orig);
    let st = match st { St::Prefix(p) if *p >= lay.2 => St::Prefix(lay.2.saturating_sub(1)), s => s.clone() };
    let st = if st == St::Prefix(0) { St::Empty } else { st };
    match &st {
        St::Missing => { let _ = std::fs::remove_file(&path); }
        St::Empty => { std::fs::write(&path, b"").unwrap(); }
        St::Prefix(p) => { std::fs::write(&path, &orig[..*p as usize]).unwrap(); }
        St::Complete => {}
    }
    let others: Vec<SegEv> = hr.sealed.iter().enumerate().filter(|(i, _)| *i != si).flat_map(|(_, s)| s.evs.iter().cloned()).collect();
    let obs = rt.block_on(observe(&hr.h, &hr.db_dir, sg, &others));
    // restore
    let _ = std::fs::remove_file(&path);
    std::fs::write(&path, &orig).unwrap();
    let case = format!("c06 sg={}/{} file={} st={} lay={}:{}:{} recs={} | {}", sg.bucket, sg.seg, kind, st.show(), lay.0, lay.1, lay.2, sg.recs, hr.line);
    out.case(&case, &obs);
    out.flush();
}

/// Every Database opened in this process leaves a few file descriptors behind (reader-pool threads keep their
/// segment files); a long run needs more than the default limit.
fn open_fds() -> u64 { std::fs::read_dir("/proc/self/fd").map(|d| d.count() as u64).unwrap_or(0) }
fn nofile_limit() -> u64 {
    unsafe { let mut lim = libc::rlimit { rlim_cur: 0, rlim_max: 0 }; if libc::getrlimit(libc::RLIMIT_NOFILE, &mut lim) != 0 { return 1024; } lim.rlim_cur as u64 }
}
fn raise_nofile_limit() {
    unsafe {
        let mut lim = libc::rlimit { rlim_cur: 0, rlim_max: 0 };
        if libc::getrlimit(libc::RLIMIT_NOFILE, &mut lim) != 0 { return; }
        for want in [1_048_576u64, 524_288, 262_144, 131_072, 65_536] {
            if want <= lim.rlim_cur { return; }
            let l = libc::rlimit { rlim_cur: want, rlim_max: want.max(lim.rlim_max) };
            if libc::setrlimit(libc::RLIMIT_NOFILE, &l) == 0 { return; }
        }
        let l = libc::rlimit { rlim_cur: lim.rlim_max, rlim_max: lim.rlim_max };
        libc::setrlimit(libc::RLIMIT_NOFILE, &l);
    }
}

fn main() {
    if std::env::var("SV_PANICS").is_err() { common::silence_panics(); }
    raise_nofile_limit();
    if std::env::var("SV_TIMING").is_ok() { unsafe { let mut lim = libc::rlimit { rlim_cur: 0, rlim_max: 0 }; libc::getrlimit(libc::RLIMIT_NOFILE, &mut lim); eprintln!("RLIMIT_NOFILE {} {}", lim.rlim_cur, lim.rlim_max); } }
    let a = common::args();
    let mut out = common::Out::new();
    let rt = tokio::runtime::Builder::new_multi_thread().worker_threads(2).enable_all().build().unwrap();
    if a.tier == "cases" {
        for line in std::fs::read_to_string(&a.rest[0]).unwrap().lines() {
            let Some((head, hline)) = line.split_once(" | ") else { continue; };
            let Some(h) = Hist::parse(hline) else { continue; };
            let mut sg = (0u16, 0u32); let mut kind = 'e'; let mut st = St::Complete;
            for f in head.split_whitespace() {
                if let Some((k, v)) = f.split_once('=') {
                    match k {
                        "sg" => { if let Some((b, s)) = v.split_once('/') { sg = (b.parse().unwrap_or(0), s.parse().unwrap_or(0)); } }
                        "file" => kind = v.chars().next().unwrap_or('e'),
                        "st" => st = St::parse(v).unwrap_or(St::Complete),
                        _ => {}
                    }
                }
            }
            let hr = run_history(&rt, h);
            if let Some(si) = hr.sealed.iter().position(|s| (s.bucket, s.seg) == sg) { run_mutation(&rt, &hr, si, kind, &st, &mut out); }
            else { eprintln!("c06: history has no sealed segment {}/{}", sg.0, sg.1); }
            let _ = std::fs::remove_dir_all(&hr.root);
        }
        return;
    }
    let thorough = a.tier == "thorough" || (a.tier == "gen" && a.rest.first().map(|x| x == "thorough").unwrap_or(false));
    let per_hist = if thorough { 60 } else { 12 };
    if a.tier == "gen" {
        // child: histories [start, start + count) of the seed's sequence, until the deadline
        let start: usize = a.rest[1].parse().unwrap();
        let count: usize = a.rest[2].parse().unwrap();
        let deadline: u64 = a.rest[3].parse().unwrap();
        let mut rng = Rng::new(a.seed ^ 0xC06);
        for i in 0..start + count {
            let mut r = rng.fork();
            if i < start { continue; }
            if now_secs() >= deadline { break; }
            // every Database opened so far has left descriptors behind: hand over to a fresh process before they run out
            if i > start && open_fds() > nofile_limit() / 3 { out.flush(); println!("#next {i}"); return; }
            let h = gen_history(&mut r, thorough);
            let th = std::time::Instant::now();
            let hr = run_history(&rt, h);
            if std::env::var("SV_TIMING").is_ok() { eprintln!("history {i}: {} ops, {} sealed segments, {:?}", hr.h.ops.len(), hr.sealed.len(), th.elapsed()); }
            if hr.sealed.is_empty() { let _ = std::fs::remove_dir_all(&hr.root); continue; }
            // all (segment, file, state) of this history, shuffled
            let mut muts: Vec<(usize, char, St)> = Vec::new();
            for (si, sg) in hr.sealed.iter().enumerate() {
                if sg.evs.is_empty() { continue; }
                for kind in ['e', 'p', 's'] {
                    let Ok(bytes) = std::fs::read(sg.dir.join(file_name(kind))) else { continue; };
                    let lay = layout(kind, &bytes);
                    muts.push((si, kind, St::Missing)); muts.push((si, kind, St::Empty)); muts.push((si, kind, St::Complete));
                    for p in cuts(lay, match kind { 'e' => 24, 'p' => 38, _ => 108 }, &mut r, thorough) { muts.push((si, kind, St::Prefix(p))); }
                }
            }
            for i in (1..muts.len()).rev() { let j = r.below(i as u64 + 1) as usize; muts.swap(i, j); }
            muts.truncate(per_hist);
            // plus, once per history: the empty directory of the next segment
            let with_events: Vec<usize> = (0..hr.sealed.len()).filter(|i| !hr.sealed[*i].evs.is_empty()).collect();
            if !with_events.is_empty() { muts.push((*r.pick(&with_events), 'd', St::Complete)); }
            let mut short = false;
            for (si, kind, st) in &muts {
                if now_secs() >= deadline { break; }
                if open_fds() > nofile_limit() / 10 * 8 { short = true; break; }      // the rest of this history's states are skipped
                run_mutation(&rt, &hr, *si, *kind, st, &mut out);
            }
            let _ = std::fs::remove_dir_all(&hr.root);
            if short { drop(out); println!("#next {}", i + 1); return; }
        }
        return;
    }
    // parent: every Database opened in a process leaves file descriptors behind, so the histories run in child
    // processes of 6 histories each, until the case or time budget is used up
    let budget: usize = std::env::var("SV_CASES").ok().and_then(|x| x.parse().ok()).unwrap_or(if thorough { 6000 } else { 700 });
    let secs: u64 = std::env::var("SV_BUDGET_S").ok().and_then(|x| x.parse().ok()).unwrap_or(if thorough { 840 } else { 55 });
    let deadline = now_secs() + secs;
    let exe = std::env::current_exe().unwrap();
    drop(out);
    let mut n = 0usize;
    let mut start = 0usize;
    while n < budget && now_secs() < deadline && start < 100_000 {
        let o = std::process::Command::new(&exe)
            .args([a.prop.as_str(), "gen", &a.seed.to_string(), if thorough { "thorough" } else { "quick" }, &start.to_string(), "6", &deadline.to_string()])
            .stderr(std::process::Stdio::inherit()).output().unwrap();
        if !o.status.success() { eprintln!("c06: child process failed: {}", o.status); std::process::exit(o.status.code().unwrap_or(1)); }
        let text = String::from_utf8_lossy(&o.stdout);
        let mut next = start + 6;
        for l in text.lines() {
            if let Some(x) = l.strip_prefix("#next ") { if let Ok(v) = x.trim().parse::<usize>() { next = v.max(start + 1); } continue; }
            n += 1;
            println!("{l}");
        }
        start = next;
    }
}

fn now_secs() -> u64 { std::time::SystemTime::now().duration_since(std::time::UNIX_EPOCH).unwrap().as_secs() }
