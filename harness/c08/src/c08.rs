//! C08: the confirmed watermark (PartitionConfirmationState::update_confirmation, and the
//! persist / load / rescan cycle of BucketConfirmationManager) on the real code.
//!
//! case lines
//!   upd <rf> <tok>...                    tok = v:c | v:c*n          (n duplicates)
//!   persist <rf> d=<txn,txn,..|-> ops=<op,op,..|->   txn = c | cxk (k events with count c), op = v:c | P
//! observed
//!   upd     : w=<wm> hv=<hv> u=[v:c,..] ws=[wm after every report] adv=[0/1 per report]
//!   persist : wb=<wm before the crash> cps=[<crash point>:<wm after restart>:<gap after restart>,..]
use common::{Args, Out, Rng, catch, list};
use sierradb::database::{Database, DatabaseBuilder, NewEvent, Transaction};
use sierradb::id::{uuid_to_partition_hash, uuid_v7_with_partition_hash};
use sierradb::StreamId;
use sierradb_cluster::confirmation::{BucketConfirmationManager, PartitionConfirmationState};
use sierradb_protocol::ExpectedVersion;
use std::collections::HashSet;
use std::path::{Path, PathBuf};
use std::time::{Duration, Instant};

// ------------------------------------------------------------------ update_confirmation
fn parse_tok(t: &str) -> Option<(u64, u8, u32)> {
    let (vc, n) = match t.split_once('*') { Some((a, b)) => (a, b.parse().ok()?), None => (t, 1u32) };
    let (v, c) = vc.split_once(':')?;
    Some((v.parse().ok()?, c.parse().ok()?, n))
}

pub fn observe_upd(rf: u8, toks: &[(u64, u8, u32)]) -> String {
    let r = catch(|| {
        let mut st = PartitionConfirmationState::new(7);
        let (mut ws, mut adv) = (Vec::new(), Vec::new());
        for &(v, c, n) in toks {
            for _ in 0..n {
                let a = st.update_confirmation(v, c, rf);
                ws.push(st.confirmed_watermark.get());
                adv.push(a as u8);
            }
        }
        let u: Vec<String> = st.unconfirmed_events.iter().map(|(v, e)| format!("{}:{}", v, e.confirmation_count)).collect();
        format!("w={} hv={} u=[{}] ws={} adv={}", st.confirmed_watermark.get(), st.highest_version, u.join(","), list(ws), list(adv))
    });
    r.unwrap_or_else(|| "PANIC".into())
}

// ------------------------------------------------------------------ persist / crash / restart
#[derive(Clone, Debug)]
enum Op { Rep(u64, u8), Persist }

fn parse_disk(s: &str) -> Option<Vec<(u8, usize)>> {
    let s = s.strip_prefix("d=")?;
    if s == "-" { return Some(vec![]); }
    s.split(',').map(|t| match t.split_once('x') {
        Some((c, k)) => Some((c.parse().ok()?, k.parse().ok()?)),
        None => Some((t.parse().ok()?, 1)),
    }).collect()
}
fn parse_ops(s: &str) -> Option<Vec<Op>> {
    let s = s.strip_prefix("ops=")?;
    if s == "-" { return Some(vec![]); }
    s.split(',').map(|t| if t == "P" { Some(Op::Persist) } else { let (v, c) = t.split_once(':')?; Some(Op::Rep(v.parse().ok()?, c.parse().ok()?)) }).collect()
}

const PARTITIONS: u16 = 8;
struct Files { cur: Option<Vec<u8>>, prev: Option<Vec<u8>>, tmp: Option<Vec<u8>> }
fn conf_dir(db: &Database) -> PathBuf { db.dir().join("buckets").join("00000").join("confirmation") }
fn rd(p: &Path) -> Option<Vec<u8>> { std::fs::read(p).ok() }
fn snapshot(d: &Path) -> Files {
    Files { cur: rd(&d.join("bucket_state.current.dat")), prev: rd(&d.join("bucket_state.previous.dat")), tmp: rd(&d.join("bucket_state.temp.dat")) }
}
fn install(d: &Path, f: &Files) {
    let _ = std::fs::create_dir_all(d);
    for (name, c) in [("bucket_state.current.dat", &f.cur), ("bucket_state.previous.dat", &f.prev), ("bucket_state.temp.dat", &f.tmp)] {
        let p = d.join(name);
        let _ = std::fs::remove_file(&p);
        if let Some(b) = c { std::fs::write(&p, b).unwrap(); }
    }
}

async fn persist_once(rf: u8, disk: &[(u8, usize)], ops: &[Op]) -> Result<String, String> {
    let tmp = tempfile::tempdir().map_err(|e| e.to_string())?;
    let db = DatabaseBuilder::new().segment_size_bytes(1024 * 256).total_buckets(1).bucket_ids_from_range(0..1)
        .open(tmp.path()).map_err(|e| format!("open: {e}"))?;
    let key = uuid::Uuid::from_u128(0x1234_5678_9abc_def0_1234_5678_9abc_def0);
    let hash = uuid_to_partition_hash(key);
    let pid = hash % PARTITIONS;
    let assigned: HashSet<u16> = HashSet::from_iter([pid]);
    // the manager starts on the still empty database, so that its in-memory state is driven by the reports only
    let mut m1 = BucketConfirmationManager::new(db.dir().clone(), 1, rf, assigned.clone());
    m1.initialize(&db).await.map_err(|e| format!("init1: {e}"))?;
    // the on-disk counts as they are at the moment of the crash
    let mut n = 0u64;
    for &(c, k) in disk {
        let evs: smallvec::SmallVec<[NewEvent; 4]> = (0..k).map(|j| NewEvent {
            event_id: uuid_v7_with_partition_hash(hash),
            stream_id: StreamId::new(format!("s{}", (n + j as u64) % 3)).unwrap(),
            stream_version: ExpectedVersion::Any,
            event_name: "e".into(), timestamp: 1, metadata: vec![], payload: vec![1, 2, 3],
        }).collect();
        let tx = Transaction::new(key, pid, evs).map_err(|e| format!("tx: {e}"))?.with_confirmation_count(c);
        let r = db.append_events(tx).await.map_err(|e| format!("append: {e}"))?;
        if r.first_partition_sequence != n { return Err(format!("unexpected sequence {} (wanted {n})", r.first_partition_sequence)); }
        n += k as u64;
    }
    let t0 = Instant::now();
    for op in ops {
        match op {
            Op::Rep(v, c) => { m1.update_confirmation(pid, *v, *c).await.map_err(|e| format!("upd: {e}"))?; }
            Op::Persist => { m1.persist_bucket_state(0).await.map_err(|e| format!("persist: {e}"))?; }
        }
    }
    let wb = m1.get_watermark(pid).map(|w| w.get()).unwrap_or(0);
    let cd = conf_dir(&db);
    let a = snapshot(&cd);
    m1.persist_bucket_state(0).await.map_err(|e| format!("persist: {e}"))?;
    if t0.elapsed() > Duration::from_millis(3500) { return Err("SLOW".into()); } // the 5 s auto-persist timer may have fired
    let e = snapshot(&cd);
    let new = e.cur.clone().ok_or("no current file after persist")?;
    // the directory states a crash can leave behind (persist_bucket_state, confirmation.rs)
    let mut cps: Vec<(&str, Files)> = Vec::new();
    cps.push(("pre", Files { cur: a.cur.clone(), prev: a.prev.clone(), tmp: a.tmp.clone() }));
    cps.push(("t0", Files { cur: a.cur.clone(), prev: a.prev.clone(), tmp: Some(vec![]) }));
    cps.push(("tH", Files { cur: a.cur.clone(), prev: a.prev.clone(), tmp: Some(new[..new.len() / 2].to_vec()) }));
    cps.push(("tF", Files { cur: a.cur.clone(), prev: a.prev.clone(), tmp: Some(new.clone()) }));
    if a.cur.is_some() {
        cps.push(("pr", Files { cur: a.cur.clone(), prev: None, tmp: Some(new.clone()) }));
        cps.push(("cr", Files { cur: None, prev: a.cur.clone(), tmp: Some(new.clone()) }));
    }
    cps.push(("ok", Files { cur: e.cur.clone(), prev: e.prev.clone(), tmp: e.tmp.clone() }));
    // not crash points of persist, but states load_bucket_state must also survive: damaged / missing current
    let mut bad = new.clone(); let i = bad.len() / 2; bad[i] ^= 0x5a;
    cps.push(("cc", Files { cur: Some(bad), prev: e.prev.clone(), tmp: None }));
    cps.push(("ct", Files { cur: Some(new[..new.len() - 1].to_vec()), prev: e.prev.clone(), tmp: None }));
    cps.push(("no", Files { cur: None, prev: None, tmp: None }));
    let mut res = Vec::new();
    for (name, f) in cps {
        install(&cd, &f);
        let mut m2 = BucketConfirmationManager::new(db.dir().clone(), 1, rf, assigned.clone());
        m2.initialize(&db).await.map_err(|e| format!("init2 {name}: {e}"))?;
        let w = m2.get_watermark(pid).map(|w| w.get()).unwrap_or(0);
        res.push(format!("{name}:{w}:{}", m2.get_confirmation_gap(pid)));
    }
    db.shutdown().await;
    Ok(format!("wb={wb} cps=[{}]", res.join(",")))
}

pub fn observe_persist(rt: &tokio::runtime::Runtime, rf: u8, disk: &[(u8, usize)], ops: &[Op]) -> String {
    for _ in 0..6 {
        match catch(|| rt.block_on(persist_once(rf, disk, ops))) {
            None => return "PANIC".into(),
            Some(Ok(s)) => return s,
            Some(Err(e)) if e == "SLOW" => continue,
            Some(Err(e)) => return format!("ERR {e}"),
        }
    }
    "ERR slow".into()
}

fn run_line(rt: &tokio::runtime::Runtime, line: &str, out: &mut Out) {
    let t: Vec<&str> = line.split_whitespace().collect();
    if t.len() < 2 { return; }
    match t[0] {
        "upd" => {
            let Ok(rf) = t[1].parse::<u8>() else { return };
            let toks: Option<Vec<_>> = t[2..].iter().map(|x| parse_tok(x)).collect();
            let Some(toks) = toks else { return };
            out.case(line, &observe_upd(rf, &toks));
        }
        "persist" if t.len() == 4 => {
            let Ok(rf) = t[1].parse::<u8>() else { return };
            let (Some(d), Some(o)) = (parse_disk(t[2]), parse_ops(t[3])) else { return };
            out.case(line, &observe_persist(rt, rf, &d, &o));
        }
        _ => {}
    }
}

// ------------------------------------------------------------------ generators
fn shuffle<T>(rng: &mut Rng, v: &mut Vec<T>) {
    for i in (1..v.len()).rev() { let j = rng.below(i as u64 + 1) as usize; v.swap(i, j); }
}

/// reports for `n` versions: per version an increasing chain of counts up to a final count, grouped in
/// multi-event "messages" (runs of versions reported with the same count), then permuted with duplicates
fn gen_reports(rng: &mut Rng, rf: u8, n: u64) -> Vec<(u64, u8)> {
    let q = rf / 2 + 1;
    let maxc = rf.max(1).min(200);
    let mut reps: Vec<(u64, u8)> = Vec::new();
    let mut v = 1u64;
    while v <= n {
        let k = if rng.chance(1, 3) { rng.range(2, 4) } else { 1 }; // multi-event transaction
        let style = rng.below(10);
        let fin: u8 = match style {
            0 => 0,                                   // never confirmed
            1 => q.saturating_sub(1),                 // just below quorum
            2 => q,                                   // exactly quorum
            3 => { v += k; continue; }                // a gap: no report at all
            _ => rng.range(q as u64, maxc.max(q) as u64) as u8,
        };
        let mut chain: Vec<u8> = vec![fin];
        let extra = rng.below(4);
        for _ in 0..extra { chain.push(rng.below(fin as u64 + 1) as u8); } // stale lower counts
        if rng.chance(1, 4) { chain.push(fin); }                          // exact duplicate
        for c in chain { for j in 0..k { if v + j <= n { reps.push((v + j, c)); } } }
        v += k;
    }
    if rng.chance(1, 8) { reps.push((0, maxc)); }                    // version 0 is below every watermark
    if rng.chance(1, 8) { reps.push((u64::MAX, maxc)); }             // far away
    if rng.chance(1, 8) { reps.push((n + 2, maxc)); }                // beyond a gap
    reps
}

fn order(rng: &mut Rng, reps: &[(u64, u8)], kind: u64) -> Vec<(u64, u8)> {
    let mut r = reps.to_vec();
    match kind {
        0 => { r.sort(); }                                            // by version, low counts first
        1 => { r.sort(); r.reverse(); }                               // high versions and high counts first
        2 => { r.sort_by_key(|&(v, c)| (v, std::cmp::Reverse(c))); }  // per version the best count first, stale ones after it
        _ => shuffle(rng, &mut r),
    }
    r
}

fn fmt_upd(rf: u8, r: &[(u64, u8)]) -> String {
    let t: Vec<String> = r.iter().map(|(v, c)| format!("{v}:{c}")).collect();
    format!("upd {rf} {}", t.join(" ")).trim_end().to_string()
}

fn gen_persist(rng: &mut Rng) -> String {
    let rf = *rng.pick(&[1u8, 2, 3, 3, 3, 4, 5, 5, 7, 12]);
    let q = rf / 2 + 1;
    let ntx = rng.range(0, 9);
    let mut disk: Vec<(u8, usize)> = Vec::new();
    let mut counts: Vec<u8> = Vec::new();
    let healthy = rng.range(0, ntx); // how many leading transactions are quorum-confirmed on disk
    for i in 0..ntx {
        let k = if rng.chance(1, 3) { rng.range(2, 3) as usize } else { 1 };
        let c = if i < healthy || rng.chance(1, 3) { rng.range(q as u64, rf.max(q).min(12) as u64) as u8 } else { rng.below(q as u64) as u8 };
        disk.push((c, k));
        for _ in 0..k { counts.push(c); }
    }
    // reports: what the in-memory state was told; normally consistent with the disk (count <= on-disk count)
    let consistent = !rng.chance(1, 6);
    let mut reps: Vec<Op> = Vec::new();
    let mut rs: Vec<(u64, u8)> = Vec::new();
    for (i, &c) in counts.iter().enumerate() {
        if rng.chance(1, 5) { continue; }
        let v = i as u64 + 1;
        rs.push((v, c));
        for _ in 0..rng.below(3) { rs.push((v, rng.below(c as u64 + 1) as u8)); }
        if !consistent && rng.chance(1, 3) { rs.push((v, rng.range(q as u64, 12) as u8)); }
    }
    let kind = rng.below(5);
    let rs = order(rng, &rs, kind);
    for (v, c) in rs {
        reps.push(Op::Rep(v, c));
        if rng.chance(1, 4) { reps.push(Op::Persist); }
    }
    if rng.chance(1, 3) { reps.insert(0, Op::Persist); }
    let d: Vec<String> = disk.iter().map(|&(c, k)| if k == 1 { format!("{c}") } else { format!("{c}x{k}") }).collect();
    let o: Vec<String> = reps.iter().map(|o| match o { Op::Rep(v, c) => format!("{v}:{c}"), Op::Persist => "P".into() }).collect();
    format!("persist {rf} d={} ops={}", if d.is_empty() { "-".into() } else { d.join(",") }, if o.is_empty() { "-".into() } else { o.join(",") })
}

pub fn run(a: &Args, out: &mut Out) {
    let rt = tokio::runtime::Builder::new_multi_thread().worker_threads(2).enable_all().build().unwrap();
    if a.tier == "cases" {
        for line in std::fs::read_to_string(&a.rest[0]).unwrap().lines() { run_line(&rt, line.trim(), out); }
        return;
    }
    let thorough = a.tier == "thorough";
    let mut rng = Rng::new(a.seed);
    // --- update_confirmation: permutations, duplicates, stale counts, multi-event versions, rf 1..12 and boundary rf
    let rfs: Vec<u8> = vec![1, 2, 3, 4, 5, 6, 7, 8, 9, 10, 11, 12, 0, 13, 255];
    let rounds = if thorough { 400 } else { 60 };
    for _ in 0..rounds {
        for &rf in &rfs {
            let n = rng.range(1, if thorough { 16 } else { 10 });
            let reps = gen_reports(&mut rng, rf, n);
            let kinds = if thorough { 6 } else { 4 };
            for kind in 0..kinds {
                let r = order(&mut rng, &reps, kind);
                run_line(&rt, &fmt_upd(rf, &r), out);
            }
        }
    }
    // many duplicates of a report that never reaches quorum (the u8 `attempts` counter)
    for &(rf, c, n) in &[(3u8, 1u8, 255u32), (3, 1, 256), (3, 1, 300), (5, 2, 600)] {
        run_line(&rt, &format!("upd {rf} 1:{c}*{n} 1:{}", rf), out);
    }
    // --- persistence: real persists in a temp dir, crash directory states, real load + rescan
    let np = if thorough { 400 } else { 45 };
    for _ in 0..np { let l = gen_persist(&mut rng); run_line(&rt, &l, out); }
}
