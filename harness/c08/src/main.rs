mod c08;
fn main() {
    common::silence_panics();
    let a = common::args();
    let mut out = common::Out::new();
    c08::run(&a, &mut out);
    out.flush();
}
