//! C19 harness: positions the live segment of a REAL sierradb::Database at an exact write offset, appends one
//! transaction, retries it up to three times after a failure, and finally appends a small probe event that
//! reveals the write offset / segment the database ended in.
//!
//! Case line (also what the model driver reads):
//!   `c19 seg=<bytes> comp=<0|1> off=<write offset before the append> ev=<kind><payload len>:<var>:<stored>,...`
//! `kind`: r = incompressible (pseudo-random) payload, c = compressible payload. `var` = stream id + event name +
//! metadata + payload lengths (what the code's estimate adds to EVENT_HEADER_SIZE), `stored` = the length of the
//! record as the real seglog writer stores it (RECORD_HEAD_SIZE + confirmation byte + prepared data; recorded by
//! appending the very same RawEvent to a scratch BucketSegmentWriter with the same compression setting).
//! `var`/`stored` are ORACLE values for the model; when a case is replayed they are recomputed and rewritten.
//!
//! Observed: `a0=<res> [a1=<res> ..] [rd=ok|rd=BAD:..] p=<res>` (rd: the accepted events read back by id) with res = `ok:<segments rolled since the fill>:<offset>,<offset>..`
//! | `full` | `big` | `other:<text>`.
use std::path::{Path, PathBuf};
use std::time::Duration;

use sierradb::bucket::segment::{BucketSegmentWriter, COMMIT_SIZE, EVENT_HEADER_SIZE, LongBytes, RawEvent, RecordHeader, SEGMENT_HEADER_SIZE, ShortString};
use sierradb::database::{Database, DatabaseBuilder, ExpectedVersion, NewEvent, Transaction};
use sierradb::error::WriteError;
use sierradb::id::{set_uuid_flag, uuid_to_partition_hash};
use sierradb::StreamId;
use smallvec::SmallVec;
use uuid::Uuid;

use common::Rng;

const GOOD_TS: u64 = 1_700_000_000_000_000_000;
const PID: u16 = 0;

fn key_uuid() -> Uuid {
    Uuid::from_u128((0x0190u128 << 112) | (0x7u128 << 76) | (0x2u128 << 62) | (100u128 << 46) | 1)
}
fn event_uuid(eid: u64) -> Uuid {
    let hash = uuid_to_partition_hash(key_uuid()) as u128;
    Uuid::from_u128((0x0191u128 << 112) | (0x7u128 << 76) | (0x2u128 << 62) | (hash << 46) | (1u128 << 40) | eid as u128)
}
fn payload(seed: u64, len: usize, kind: char) -> Vec<u8> {
    match kind {
        'r' => { let mut r = Rng::new(seed ^ 0x5151); (0..len).map(|_| r.next() as u8).collect() }
        _ => (0..len).map(|i| b'a' + ((i / 7) % 3) as u8).collect(),
    }
}

#[derive(Clone, Debug)]
struct Ev { kind: char, plen: usize, var: usize, stored: usize }
#[derive(Clone, Debug)]
struct Case { seg: usize, comp: bool, off: u64, evs: Vec<Ev> }

impl Case {
    fn show(&self) -> String {
        format!("c19 seg={} comp={} off={} ev={}", self.seg, self.comp as u8, self.off,
            self.evs.iter().map(|e| format!("{}{}:{}:{}", e.kind, e.plen, e.var, e.stored)).collect::<Vec<_>>().join(","))
    }
    fn parse(line: &str) -> Option<Case> {
        let t: Vec<&str> = line.split_whitespace().collect();
        if t.first() != Some(&"c19") { return None; }
        let mut c = Case { seg: 131072, comp: false, off: 48, evs: vec![] };
        for f in &t[1..] {
            let (a, b) = f.split_once('=')?;
            match a {
                "seg" => c.seg = b.parse().ok()?,
                "comp" => c.comp = b == "1",
                "off" => c.off = b.parse().ok()?,
                "ev" => for e in b.split(',') {
                    let q: Vec<&str> = e.split(':').collect();
                    let kind = q[0].chars().next()?;
                    c.evs.push(Ev { kind, plen: q[0][1..].parse().ok()?, var: 0, stored: 0 });
                },
                _ => {}
            }
        }
        if c.evs.is_empty() { return None; }
        Some(c)
    }
    fn single(&self) -> bool { self.evs.len() == 1 }
    fn estimate(&self) -> usize { self.evs.iter().map(|e| EVENT_HEADER_SIZE + e.var).sum::<usize>() + if self.single() { 0 } else { COMMIT_SIZE } }
    fn actual(&self) -> usize { self.evs.iter().map(|e| e.stored).sum::<usize>() + if self.single() { 0 } else { COMMIT_SIZE } }
}

/// the real stored length of an event record: the same RawEvent appended to a scratch segment by the real writer
struct Scratch { dir: tempfile::TempDir, n: u32 }
impl Scratch {
    fn new() -> Scratch { Scratch { dir: tempfile::Builder::new().prefix("sv-c19s-").tempdir().unwrap(), n: 0 } }
    fn stored_len(&mut self, comp: bool, ev: &RawEvent) -> usize {
        self.n += 1;
        let p = self.dir.path().join(format!("s{}", self.n));
        let need = 4096 + 2 * (ev.payload.0.len() + 4096);
        let mut w = BucketSegmentWriter::create(&p, 0, need, comp).unwrap();
        let (_, len) = w.append_event(0, ev).unwrap();
        drop(w);
        let _ = std::fs::remove_file(&p);
        len
    }
}

struct World { root: tempfile::TempDir, db: Database, seg: usize, comp: bool, cur: u64, nsegs: usize, next_eid: u64, seq: u64, ver_f: u64, cases: usize }

fn seg_dir(root: &Path) -> PathBuf { root.join("buckets").join("00000").join("segments") }
fn seg_count(root: &Path) -> usize {
    std::fs::read_dir(seg_dir(root)).map(|r| r.filter(|e| e.as_ref().map(|e| e.path().join("data.evts").exists()).unwrap_or(false)).count()).unwrap_or(0)
}
fn rec_len_at(root: &Path, seg: usize, off: u64) -> Option<u64> {
    use std::os::unix::fs::FileExt;
    let f = std::fs::File::open(seg_dir(root).join(format!("{:010}", seg)).join("data.evts")).ok()?;
    let mut b = [0u8; 4];
    f.read_exact_at(&mut b, off).ok()?;
    Some(8 + (u32::from_le_bytes(b) & 0x7FFF_FFFF) as u64)
}

enum Res { Ok(usize, Vec<u64>), Full, Big, Other(String) }
impl Res {
    fn show(&self, base: usize) -> String {
        match self {
            Res::Ok(segs, offs) => format!("ok:{}:{}", segs - base, offs.iter().map(|o| o.to_string()).collect::<Vec<_>>().join(",")),
            Res::Full => "full".into(), Res::Big => "big".into(),
            Res::Other(s) => format!("other:{}", s.chars().map(|c| if c.is_whitespace() { '_' } else { c }).take(60).collect::<String>()),
        }
    }
}

const MINF: u64 = (EVENT_HEADER_SIZE + 2) as u64;       // 95: filler with an empty payload
const MAXF: u64 = (EVENT_HEADER_SIZE + 2 + 41) as u64;  // 136: filler data below MIN_COMPRESSION_SIZE, never compressed

impl World {
    fn new(seg: usize, comp: bool) -> World {
        let root = tempfile::Builder::new().prefix("sv-c19-").tempdir().unwrap();
        let mut b = DatabaseBuilder::new();
        b.segment_size_bytes(seg).total_buckets(1).bucket_ids_from_range(0..1).reader_threads(1).writer_threads(1)
            .sync_interval(Duration::from_millis(1)).sync_idle_interval(Duration::from_millis(2))
            .cache_capacity_bytes(1024 * 1024).compression(comp);
        let db = b.open(root.path()).unwrap();
        World { root, db, seg, comp, cur: SEGMENT_HEADER_SIZE as u64, nsegs: 1, next_eid: 0, seq: 0, ver_f: 0, cases: 0 }
    }

    /// one transaction on the real database; events = (stream, name, payload, eid)
    async fn append(&mut self, evs: Vec<(&'static str, &'static str, Vec<u8>, u64)>, txid: Uuid, bad_ts: bool) -> Res {
        let n = evs.len();
        let mut news: SmallVec<[NewEvent; 4]> = SmallVec::new();
        for (sid, name, pl, eid) in evs {
            news.push(NewEvent { event_id: event_uuid(eid), stream_id: StreamId::new(sid).unwrap(), stream_version: ExpectedVersion::Any,
                event_name: name.to_string(), timestamp: if bad_ts { (1u64 << 63) + 1 } else { GOOD_TS + eid }, metadata: vec![], payload: pl });
        }
        let tx = Transaction::new(key_uuid(), PID, news).unwrap().with_transaction_id(set_uuid_flag(txid, n == 1));
        match tokio::time::timeout(Duration::from_secs(30), self.db.append_events(tx)).await {
            Err(_) => Res::Other("TIMEOUT".into()),
            Ok(Ok(ar)) => { self.seq += n as u64; Res::Ok(seg_count(self.root.path()), ar.offsets.to_vec()) }
            Ok(Err(WriteError::EventsExceedSegmentSize)) => Res::Big,
            Ok(Err(WriteError::Writer(seglog::write::WriteError::SegmentFull { .. }))) => Res::Full,
            Ok(Err(e)) => Res::Other(e.to_string()),
        }
    }

    fn filler_txid(eid: u64) -> Uuid { Uuid::from_u128(0x7000_0000 + eid as u128) }

    /// a single-event filler with a payload of `plen` bytes; the write offset is read back from the segment file
    async fn filler(&mut self, plen: usize, kind: char) -> Result<(), String> {
        let eid = self.next_eid; self.next_eid += 1;
        let before = self.cur;
        match self.append(vec![("f", "F", payload(eid, plen, kind), eid)], Self::filler_txid(eid), false).await {
            Res::Ok(segs, offs) => {
                if segs != self.nsegs || offs[0] != before { return Err(format!("filler landed at {}:{} instead of {}:{}", segs - 1, offs[0], self.nsegs - 1, before)); }
                self.ver_f += 1;
                self.cur = offs[0] + rec_len_at(self.root.path(), self.nsegs - 1, offs[0]).ok_or("cannot read filler record")?;
                Ok(())
            }
            r => Err(format!("filler failed: {}", r.show(self.nsegs))),
        }
    }

    /// a fresh live segment without a new database: a transaction that needs a rollover (its size estimate
    /// exceeds the free space) and whose write then fails (invalid timestamp) leaves a new, empty segment
    async fn fresh_segment(&mut self) -> Result<(), String> {
        if self.cur == SEGMENT_HEADER_SIZE as u64 { return Ok(()); }
        let plen = self.seg - SEGMENT_HEADER_SIZE - MINF as usize;
        let eid = self.next_eid; self.next_eid += 1;
        let r = self.append(vec![("f", "F", vec![0u8; plen], eid)], Self::filler_txid(eid), true).await;
        if matches!(r, Res::Ok(..)) { return Err("bad-timestamp append succeeded".into()); }
        if seg_count(self.root.path()) != self.nsegs + 1 { return Err("no rollover".into()); }
        self.nsegs += 1; self.cur = SEGMENT_HEADER_SIZE as u64;
        Ok(())
    }

    /// bring the live segment's write offset to exactly `target`
    async fn fill(&mut self, target: u64, scratch: &mut Scratch) -> Result<(), String> {
        if target == self.cur { return Ok(()); }
        if target < self.cur + MINF { return Err(format!("offset {} not reachable from {}", target, self.cur)); }
        // one big incompressible filler leaving ~340 bytes (its stored length is predicted with the scratch writer and read
        // back; any remainder >= 285 can be filled exactly with 95..136-byte records, so the prediction may be off by 50 bytes)
        if target - self.cur > 1500 {
            let eid = self.next_eid;
            let mut plen = (target - self.cur) as usize - 340 - MINF as usize;
            if self.comp {
                let pl = payload(eid, plen, 'r');
                let raw = RawEvent { header: RecordHeader::new_event(GOOD_TS + eid, set_uuid_flag(Self::filler_txid(eid), true)).unwrap(), event_id: event_uuid(eid).into_bytes(),
                    partition_key: key_uuid().into_bytes(), partition_id: PID, partition_sequence: self.seq, stream_version: self.ver_f, stream_id: StreamId::new("f").unwrap(),
                    event_name: ShortString("F".into()), metadata: LongBytes(vec![]), payload: LongBytes(pl) };
                let over = scratch.stored_len(true, &raw) as i64 - (plen as i64 + MINF as i64);
                plen = (plen as i64 - over) as usize;
            }
            self.filler(plen, 'r').await?;
            if self.cur > target || (self.cur != target && self.cur + MINF > target) { return Err(format!("big filler overshot: {} vs {}", self.cur, target)); }
        }
        loop {
            let r = target - self.cur;
            if r == 0 { return Ok(()); }
            let n = r.div_ceil(MAXF);
            if n * MINF > r { return Err(format!("remainder {} not representable", r)); }
            self.filler((r / n - MINF) as usize, 'c').await?;
        }
    }
}

fn raw_event(eid: u64, txid: Uuid, seq: u64, ver: u64, pl: Vec<u8>) -> RawEvent {
    RawEvent { header: RecordHeader::new_event(GOOD_TS + eid, txid).unwrap(), event_id: event_uuid(eid).into_bytes(), partition_key: key_uuid().into_bytes(),
        partition_id: PID, partition_sequence: seq, stream_version: ver, stream_id: StreamId::new("t").unwrap(),
        event_name: ShortString("E".into()), metadata: LongBytes(vec![]), payload: LongBytes(pl) }
}

/// fills in `var` and `stored` for a transaction whose first event would get partition sequence `seq0` and
/// stream version `ver0` on stream "t"
fn measure(c: &mut Case, scratch: &mut Scratch, seq0: u64, ver0: u64, eid0: u64, txid: Uuid) {
    let n = c.evs.len();
    for (i, e) in c.evs.iter_mut().enumerate() {
        let eid = eid0 + i as u64;
        let pl = payload(eid, e.plen, e.kind);
        e.var = 1 + 1 + pl.len();
        e.stored = scratch.stored_len(c.comp, &raw_event(eid, set_uuid_flag(txid, n == 1), seq0 + i as u64, ver0 + i as u64, pl));
    }
}

/// offsets the filler events can produce: 48 + sums of record sizes in 95..=136
fn reachable(off: u64, seg: usize) -> bool {
    if off == 48 { return true; }
    if off < 48 || off > seg as u64 { return false; }
    let r = off - 48;
    (1..=3).any(|n| 95 * n <= r && r <= 136 * n) || r >= 285
}

fn test_txid(n: u64) -> Uuid { Uuid::from_u128(0x1234_5678_9abc_def0_0000_0000_0000_0000 + n as u128) }

struct Runner { world: Option<World>, scratch: Scratch, ver_t: u64, ncase: u64 }

impl Runner {
    async fn run_case(&mut self, mut c: Case) -> (String, String) {
        // reuse the database for up to 24 cases with the same configuration (a fresh live segment each time)
        let mut reuse = false;
        if let Some(w) = self.world.as_mut() {
            if w.seg == c.seg && w.comp == c.comp && w.cases < 24 && w.fresh_segment().await.is_ok() { reuse = true; }
        }
        if !reuse {
            if let Some(w) = self.world.take() { w.db.shutdown().await; }
            self.world = Some(World::new(c.seg, c.comp)); self.ver_t = 0;
        }
        let w = self.world.as_mut().unwrap();
        w.cases += 1; self.ncase += 1;
        let eid0 = 1_000_000 + self.ncase * 16;
        let txid = test_txid(self.ncase);
        let obs = match w.fill(c.off, &mut self.scratch).await {
            Err(e) => { measure(&mut c, &mut self.scratch, 0, 0, eid0, txid); w.cases = 1000; format!("HARNESS-ERR {e}") }
            Ok(()) => {
                measure(&mut c, &mut self.scratch, w.seq, self.ver_t, eid0, txid);
                let base = w.nsegs;
                let mut out = Vec::new();
                for attempt in 0..4 {
                    let evs: Vec<_> = c.evs.iter().enumerate().map(|(i, e)| ("t", "E", payload(eid0 + i as u64, e.plen, e.kind), eid0 + i as u64)).collect();
                    let r = w.append(evs, txid, false).await;
                    out.push(format!("a{}={}", attempt, r.show(base)));
                    if matches!(r, Res::Ok(..)) {
                        self.ver_t += c.evs.len() as u64;
                        // the acknowledged events are stored intact
                        let mut bad = None;
                        for (i, e) in c.evs.iter().enumerate() {
                            let eid = eid0 + i as u64;
                            match tokio::time::timeout(Duration::from_secs(30), w.db.read_event(PID, event_uuid(eid))).await {
                                Ok(Ok(Some(rec))) => if rec.payload != payload(eid, e.plen, e.kind) || rec.event_name != "E" || rec.stream_id.as_ref() != "t" || !rec.metadata.is_empty() { bad = Some(format!("e{i}:content")); },
                                Ok(Ok(None)) => bad = Some(format!("e{i}:none")),
                                Ok(Err(x)) => bad = Some(format!("e{i}:err:{}", x.to_string().replace(' ', "_"))),
                                Err(_) => bad = Some(format!("e{i}:TIMEOUT")),
                            }
                        }
                        out.push(match bad { None => "rd=ok".to_string(), Some(b) => format!("rd=BAD:{b}") });
                        break;
                    }
                }
                let eid = w.next_eid; w.next_eid += 1;
                let r = w.append(vec![("f", "F", payload(eid, 10, 'c'), eid)], World::filler_txid(eid), false).await;
                if matches!(r, Res::Ok(..)) { w.ver_f += 1; }
                out.push(format!("p={}", r.show(base)));
                // where the database ended: needed to continue in this database
                w.nsegs = seg_count(w.root.path());
                match &r {
                    Res::Ok(_, offs) => match rec_len_at(w.root.path(), w.nsegs - 1, offs[0]) { Some(l) => w.cur = offs[0] + l, None => w.cases = 1000 },
                    _ => w.cases = 1000,
                }
                out.join(" ")
            }
        };
        (c.show(), obs)
    }
    async fn finish(&mut self) { if let Some(w) = self.world.take() { w.db.shutdown().await; } }
}

/// transaction shapes: (events as (kind, payload len))
fn shapes(seg: usize, rng: &mut Rng, thorough: bool) -> Vec<Vec<(char, usize)>> {
    let hdr = EVENT_HEADER_SIZE + 2;
    let mut v: Vec<Vec<(char, usize)>> = vec![
        vec![('r', 300)], vec![('r', 5000)], vec![('c', 5000)], vec![('r', 40)], vec![('r', 126 - 84 - 2 + 86)],
        vec![('r', 2000), ('c', 300), ('r', 150)], vec![('r', 200), ('r', 200)], vec![('c', 3000), ('c', 10)],
        // (b): the uncompressed estimate just fits an empty segment, the stored record does not
        vec![('r', seg - SEGMENT_HEADER_SIZE - hdr)], vec![('r', seg - SEGMENT_HEADER_SIZE - hdr - 7)], vec![('r', seg - SEGMENT_HEADER_SIZE - hdr - 40)],
        // (c): the uncompressed estimate exceeds the segment, the stored record is tiny
        vec![('c', seg - SEGMENT_HEADER_SIZE - hdr + 1)], vec![('c', 2 * seg)], vec![('c', seg), ('r', 100)],
        // incompressible and as large as fits
        vec![('r', seg / 2)], vec![('r', seg / 3), ('r', seg / 3)],
    ];
    // mixed transactions that fill an EMPTY segment to within a few bytes of its capacity by their uncompressed estimate:
    // several incompressible events (each stored larger than estimated) followed / preceded by a compressible one
    // (stored much smaller), so the transaction fits only because of compression and sits at the very end of the segment
    for delta in [0usize, 9, 33, 70] {
        for n_r in [4usize, 6] {
            let s_r = 15_000usize;
            let fixed = SEGMENT_HEADER_SIZE + COMMIT_SIZE + (n_r + 1) * hdr + n_r * s_r + delta;
            if seg > fixed + 200 {
                let last = seg - fixed;
                let mut a: Vec<(char, usize)> = (0..n_r).map(|_| ('r', s_r)).collect(); a.push(('c', last));
                let mut b: Vec<(char, usize)> = vec![('c', last)]; b.extend((0..n_r).map(|_| ('r', s_r)));
                v.push(a); v.push(b);
            }
        }
    }
    let extra = if thorough { 40 } else { 3 };
    for _ in 0..extra {
        let n = *rng.pick(&[1usize, 1, 2, 3, 4]);
        v.push((0..n).map(|_| (if rng.chance(2, 3) { 'r' } else { 'c' }, match rng.below(4) { 0 => rng.range(0, 140), 1 => rng.range(100, 3000), 2 => rng.range(3000, 30000), _ => rng.range(0, 60000) } as usize)).collect());
    }
    v
}

/// Every Database opened in this process leaves a few file descriptors behind (reader-pool threads keep their
/// segment files); a long run needs more than the default limit.
fn raise_nofile_limit() {
    unsafe {
        let mut lim = libc::rlimit { rlim_cur: 0, rlim_max: 0 };
        if libc::getrlimit(libc::RLIMIT_NOFILE, &mut lim) != 0 { return; }
        for want in [1_048_576u64, 524_288, 262_144, 131_072, 65_536] {
            if want <= lim.rlim_cur { return; }
            let l = libc::rlimit { rlim_cur: want, rlim_max: want.max(lim.rlim_max) };
            if libc::setrlimit(libc::RLIMIT_NOFILE, &l) == 0 { return; }
        }
        let l = libc::rlimit { rlim_cur: lim.rlim_max, rlim_max: lim.rlim_max };
        libc::setrlimit(libc::RLIMIT_NOFILE, &l);
    }
}

fn main() {
    if std::env::var("SV_PANICS").is_err() { common::silence_panics(); }
    raise_nofile_limit();
    if std::env::var("SV_TIMING").is_ok() { unsafe { let mut lim = libc::rlimit { rlim_cur: 0, rlim_max: 0 }; libc::getrlimit(libc::RLIMIT_NOFILE, &mut lim); eprintln!("RLIMIT_NOFILE {} {}", lim.rlim_cur, lim.rlim_max); } }
    let a = common::args();
    let mut out = common::Out::new();
    let rt = tokio::runtime::Builder::new_multi_thread().worker_threads(2).enable_all().build().unwrap();
    let mut scratch = Scratch::new();
    let mut runner = Runner { world: None, scratch: Scratch::new(), ver_t: 0, ncase: 0 };
    if a.tier == "cases" {
        let deadline: Option<u64> = std::env::var("SV_DEADLINE").ok().and_then(|x| x.parse().ok());
        for line in std::fs::read_to_string(&a.rest[0]).unwrap().lines() {
            if deadline.is_some_and(|d| now_secs() >= d) { break; }
            if let Some(c) = Case::parse(line) {
                if !reachable(c.off, c.seg) { eprintln!("skipping unreachable offset: {line}"); continue; }
                let (cs, obs) = rt.block_on(runner.run_case(c));
                out.case(&cs, &obs); out.flush();
            }
        }
        rt.block_on(runner.finish());
        return;
    }
    let thorough = a.tier == "thorough";
    let mut rng = Rng::new(a.seed ^ 0xC19);
    let budget: usize = std::env::var("SV_CASES").ok().and_then(|x| x.parse().ok()).unwrap_or(if thorough { 40000 } else { 2500 });
    // all candidate (shape, seg, comp, k)
    let mut cands: Vec<Case> = Vec::new();
    for &seg in &[131072usize, 262144] {
        for comp in [true, false] {
            for sh in shapes(seg, &mut rng, thorough) {
                let mut c = Case { seg, comp, off: 48, evs: sh.iter().map(|(k, l)| Ev { kind: *k, plen: *l, var: 0, stored: 0 }).collect() };
                measure(&mut c, &mut scratch, 0, 0, 1_000_000, test_txid(0));
                let (est, act) = (c.estimate() as i64, c.actual() as i64);
                let (lo, hi) = (est.min(act) - 64, est.max(act) + 64);
                let mut ks: Vec<i64> = Vec::new();
                if hi - lo <= 400 { ks.extend(lo..=hi); } else {
                    ks.extend(lo..=est.min(act) + 64); ks.extend(est.max(act) - 64..=hi);
                    for _ in 0..40 { ks.push(lo + rng.below((hi - lo) as u64) as i64); }
                }
                // plus the empty segment and an almost empty one
                ks.push(seg as i64 - 48); ks.push(seg as i64 - 48 - 95); ks.push(seg as i64 - 48 - 1000);
                for k in ks {
                    let off = seg as i64 - k;
                    if off < 48 || !reachable(off as u64, seg) { continue; }
                    let mut cc = c.clone(); cc.off = off as u64; cands.push(cc);
                }
            }
        }
    }
    // priority classes: 0 = exactly on a decision boundary (free space = estimate or = stored size, one byte less, or an
    // empty segment), 1 = within 2 bytes of one, 2 = the rest.  Each class is shuffled; the case budget is filled in
    // priority order; the run order is class by class too, so a run cut short by the time budget loses the least
    // interesting cases
    let class = |c: &Case| -> u8 {
        let k = c.seg as i64 - c.off as i64;
        let d = [c.estimate() as i64, c.actual() as i64].iter().map(|b| (k - b).abs()).min().unwrap();
        let below = [c.estimate() as i64, c.actual() as i64].iter().any(|b| k - b == -1);
        if d == 0 || below || c.off == 48 { 0 } else if d <= 2 { 1 } else { 2 }
    };
    let mut by_class: [Vec<Case>; 3] = [vec![], vec![], vec![]];
    for c in cands { let i = class(&c) as usize; by_class[i].push(c); }
    let mut chunks: Vec<Vec<Case>> = Vec::new();
    let mut left = budget;
    for v in by_class.iter_mut() {
        for i in (1..v.len()).rev() { let j = rng.below(i as u64 + 1) as usize; v.swap(i, j); }
        v.truncate(left); left -= v.len();
        // the database is reused for consecutive cases of one configuration: chunks of 24 cases of one (seg, comp)
        let mut groups: std::collections::BTreeMap<(usize, bool), Vec<Case>> = std::collections::BTreeMap::new();
        for c in v.drain(..) { groups.entry((c.seg, c.comp)).or_default().push(c); }
        let mut cs: Vec<Vec<Case>> = Vec::new();
        for (_, g) in groups { for ch in g.chunks(24) { cs.push(ch.to_vec()); } }
        for i in (1..cs.len()).rev() { let j = rng.below(i as u64 + 1) as usize; cs.swap(i, j); }
        chunks.extend(cs);
    }
    let secs: u64 = std::env::var("SV_BUDGET_S").ok().and_then(|x| x.parse().ok()).unwrap_or(if thorough { 840 } else { 45 });
    // Databases opened in one process leave file descriptors behind: run the cases in child processes of at most
    // 40 chunks (960 cases) each; a child stops at the deadline
    let deadline = now_secs() + secs;
    let exe = std::env::current_exe().unwrap();
    let tmp = tempfile::Builder::new().prefix("sv-c19b-").tempdir().unwrap();
    drop(runner); drop(out);
    for (bi, batch) in chunks.chunks(40).enumerate() {
        if now_secs() >= deadline { break; }
        let f = tmp.path().join(format!("b{bi}.cases"));
        let text: String = batch.iter().flatten().map(|c| c.show() + "\n").collect();
        std::fs::write(&f, text).unwrap();
        let st = std::process::Command::new(&exe).args([&a.prop, "cases", &a.seed.to_string()]).arg(&f)
            .env("SV_DEADLINE", deadline.to_string()).status().unwrap();
        if !st.success() { eprintln!("c19: child process failed: {st}"); std::process::exit(st.code().unwrap_or(1)); }
    }
}

fn now_secs() -> u64 { std::time::SystemTime::now().duration_since(std::time::UNIX_EPOCH).unwrap().as_secs() }
